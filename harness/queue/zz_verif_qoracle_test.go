//go:build verif

package queue

import (
	"fmt"
	"math"
	"sort"
	"strings"
	"time"

	"github.com/nuetzliches/hookaido/internal/verifkit"
)

// qOracle is the transition validator of DESIGN.md §3: it never predicts which of several
// legal outcomes the store picks, it checks that (prev, op, result, now) -> next is legal.
type qOracle struct {
	cfg      QCfg
	backend  string
	sub      bool // sub-granularity tier: sqlite may lag expiry by < 10ms
	issued   map[string]bool
	insSeq   map[string]int
	seq      int
	depthOff bool
	// dead messages whose id was enqueued again in the current step (removed by the dlq depth prune first)
	depthReplaced []Msg
	labels        map[string]bool
	// counters for non-trivial rules
	stateChanging int
	failedOps     int
	walletLookup  func(lease string) string // lease id -> message id it was granted for
}

func newQOracle(cfg QCfg, backend string, sub bool) *qOracle {
	return &qOracle{cfg: cfg, backend: backend, sub: sub, issued: map[string]bool{}, insSeq: map[string]int{}, labels: map[string]bool{}}
}

func (o *qOracle) label(l string) { o.labels[l] = true }

func fail(props, clause string, step int, format string, args ...any) *verifkit.Failure {
	return &verifkit.Failure{Prop: props, Clause: clause, Step: step, Detail: fmt.Sprintf(format, args...)}
}

func (o *qOracle) pruneOn() bool { return o.cfg.PruneMs > 0 }

func (o *qOracle) ageEligible(m Msg, now int64) bool {
	if !o.pruneOn() {
		return false
	}
	switch m.State {
	case "queued":
		return o.cfg.RetMs > 0 && m.Recv != qZero && m.Recv <= now-int64(ms(o.cfg.RetMs))
	case "dead":
		return o.cfg.DLQAgeMs > 0 && m.Recv != qZero && m.Recv <= now-int64(ms(o.cfg.DLQAgeMs))
	case "delivered":
		ts := m.Next
		if ts == qZero {
			ts = m.Recv
		}
		return o.cfg.DelivMs > 0 && ts != qZero && ts <= now-int64(ms(o.cfg.DelivMs))
	}
	return false
}

func isExpired(m Msg, now int64) bool {
	return m.State == "leased" && m.Until != qZero && m.Until <= now
}

func released(p, n Msg, now int64) bool {
	return n.State == "queued" && n.Lease == "" && n.Until == qZero && n.Dead == "" && n.Attempt == p.Attempt &&
		sameImmutable(p, n) && n.Next == now
}

type sideVerdict int

const (
	sideNo sideVerdict = iota
	sideOK
	sideDepth // removed dead message: legal only under the dlq depth rule (checked globally)
)

// side decides whether p -> n (n == nil: removed) is explained by the side effects that are
// legal at any call: release of an expired lease, retention pruning of an eligible message.
func (o *qOracle) side(p Msg, n *Msg, now int64) sideVerdict {
	if n != nil {
		if eqMsg(p, *n) {
			return sideOK
		}
		if isExpired(p, now) && released(p, *n, now) {
			o.label("expired-lease-released")
			return sideOK
		}
		return sideNo
	}
	if o.ageEligible(p, now) {
		o.label("pruned-by-age")
		return sideOK
	}
	if isExpired(p, now) {
		q := p
		q.State = "queued"
		if o.ageEligible(q, now) {
			o.label("expired-then-pruned")
			return sideOK
		}
	}
	if p.State == "dead" && o.pruneOn() && o.cfg.DLQDepth > 0 {
		return sideDepth
	}
	return sideNo
}

// envError: the error text names a condition of the machine (disk, locking between processes),
// not of the code under test.
func envError(e string) bool {
	l := strings.ToLower(e)
	for _, k := range []string{"no space", "disk", "i/o", "busy", "locked", "too many open files", "permission", "read-only", "readonly", "out of memory"} {
		if strings.Contains(l, k) {
			return true
		}
	}
	return false
}

// qSat is the last instant an int64 nanosecond clock can name (year 2262), relative to the harness
// epoch. A deadline or ready time the statement puts beyond it ("now + 290 years") cannot be stored
// exactly by a backend that keeps nanoseconds in 64 bits; what matters is that the message does not
// become ready / the lease does not end before that limit.
var qSat = relNs(time.Unix(0, math.MaxInt64))

func satAdd(a, b int64) int64 {
	s := a + b
	if b > 0 && s < a {
		return math.MaxInt64
	}
	return s
}

func atOrSat(got, want int64) bool {
	if want <= qSat {
		return got == want
	}
	return got >= qSat
}

func capBatch(n int) int {
	if n <= 0 {
		return 1
	}
	if n > 100 {
		return 100
	}
	return n
}

func capLimit(n int) int {
	if n <= 0 {
		return 100
	}
	if n > 1000 {
		return 1000
	}
	return n
}

func normIDs(ids []string) []string {
	seen := map[string]bool{}
	var out []string
	for _, raw := range ids {
		id := strings.TrimSpace(raw)
		if id == "" || seen[id] {
			continue
		}
		seen[id] = true
		out = append(out, id)
	}
	return out
}

func holderOf(prev Snap, lease string) (Msg, bool) {
	if lease == "" {
		return Msg{}, false
	}
	for _, m := range prev {
		if m.State == "leased" && m.Lease == lease {
			return m, true
		}
	}
	return Msg{}, false
}

func clearedLease(n Msg) bool { return n.Lease == "" && n.Until == qZero }

// validate checks one step. It returns nil when the step is legal.
func (o *qOracle) validate(step int, prev, next Snap, r resolvedOp, res QRes) *verifkit.Failure {
	op := r.Op
	now := r.Now
	explained := map[string]bool{}
	genericTag := "C02"

	if strings.HasPrefix(res.Err, "other:") && !(op.K == "list") {
		if op.K == "deq" && !envError(res.Err) {
			// no fault is injected in this tier: a dequeue that fails hands out nothing although
			// capacity was requested
			return fail("C05,C03", "dequeue-internal-error", step, "dequeue returned %s", res.Err)
		}
		return fail("HARNESS", "unexpected-error", step, "op %s returned %s", op.K, res.Err)
	}

	switch op.K {
	case "enq":
		genericTag = "C12,C02"
		if f := o.validateEnqueue(step, prev, next, r, res, explained); f != nil {
			return f
		}
	case "deq":
		genericTag = "C03,C02"
		if f := o.validateDequeue(step, prev, next, r, res, explained); f != nil {
			return f
		}
	case "ack", "nack", "ext", "dead":
		genericTag = "C04,C02"
		if f := o.validateLeaseSingle(step, prev, next, r, res, explained); f != nil {
			return f
		}
	case "ackb", "nackb", "deadb":
		genericTag = "C04,C02"
		if f := o.validateLeaseBatch(step, prev, next, r, res, explained); f != nil {
			return f
		}
	case "cancel", "requeue", "resume", "rqdead", "deldead":
		genericTag = "C14,C02"
		if f := o.validateManageIDs(step, prev, next, r, res, explained); f != nil {
			return f
		}
	case "cancelf", "requeuef", "resumef":
		genericTag = "C14,C02"
		if f := o.validateManageFilter(step, prev, next, r, res, explained); f != nil {
			return f
		}
	case "list", "listdead", "lookup", "stats":
		if f := o.validateRead(step, next, r, res); f != nil {
			return f
		}
	case "reopen":
		// closing and reopening the database changes nothing: no message lost (C01, C02), no lease ended (C03)
		genericTag = "C01,C02,C03"
	}

	// Everything not explained by the op's primary effect must be a legal side effect.
	depthRemoved := append([]Msg(nil), o.depthReplaced...)
	depthGone := map[string]bool{}
	for _, m := range o.depthReplaced {
		depthGone[m.ID] = true
	}
	o.depthReplaced = nil
	for _, id := range unionIDs(prev, next) {
		if explained[id] {
			continue
		}
		p, inPrev := prev[id]
		n, inNext := next[id]
		switch {
		case inPrev && inNext:
			if o.side(p, &n, now) != sideOK {
				return fail(genericTag, "illegal-change", step, "op %s (err=%q): message %s changed illegally: %s -> %s", op.K, res.Err, id, fmtMsg(p), fmtMsg(n))
			}
		case inPrev:
			switch o.side(p, nil, now) {
			case sideOK:
			case sideDepth:
				depthRemoved = append(depthRemoved, p)
			default:
				return fail(genericTag, "illegal-disappearance", step, "op %s (err=%q): message %s disappeared: %s (now=%s)", op.K, res.Err, id, fmtMsg(p), msOf(now))
			}
		default:
			return fail(genericTag, "message-from-nowhere", step, "op %s (err=%q): message %s appeared: %s", op.K, res.Err, id, fmtMsg(n))
		}
	}
	if len(depthRemoved) > 0 {
		o.label("pruned-by-dlq-depth")
		var kept []Msg
		for id, p := range prev {
			if p.State != "dead" || depthGone[id] {
				continue
			}
			if _, still := next[id]; still {
				kept = append(kept, p)
			}
		}
		if len(kept) < o.cfg.DLQDepth {
			return fail("C02", "dlq-depth-overprune", step, "op %s: dlq pruned below max_depth %d: kept %d, removed %d", op.K, o.cfg.DLQDepth, len(kept), len(depthRemoved))
		}
		for _, rm := range depthRemoved {
			for _, k := range kept {
				if rm.Recv > k.Recv {
					return fail("C02", "dlq-depth-not-oldest", step, "op %s: dlq depth prune removed %s (recv %s) but kept older %s (recv %s)", op.K, rm.ID, msOf(rm.Recv), k.ID, msOf(k.Recv))
				}
			}
		}
	}

	// State invariants of the resulting snapshot.
	leaseSeen := map[string]string{}
	for id, m := range next {
		switch m.State {
		case "queued", "leased", "delivered", "dead", "canceled":
		default:
			return fail("C02", "unknown-state", step, "message %s in state %q", id, m.State)
		}
		if m.State == "leased" {
			if m.Lease == "" || m.Until == qZero {
				return fail("C02,C03", "leased-without-lease", step, "message %s leased without lease id/until: %s", id, fmtMsg(m))
			}
			if other, dup := leaseSeen[m.Lease]; dup {
				return fail("C03", "lease-id-shared", step, "lease %s held by %s and %s", m.Lease, other, id)
			}
			leaseSeen[m.Lease] = id
		} else if !clearedLease(m) {
			return fail("C02,C04", "lease-not-cleared", step, "message %s in state %s still carries lease %q", id, m.State, m.Lease)
		}
	}

	if op.K == "requeue" || op.K == "resume" || op.K == "rqdead" || op.K == "requeuef" || op.K == "resumef" {
		if o.cfg.MaxDepth > 0 && next.count("queued", "leased") > o.cfg.MaxDepth {
			o.depthOff = true
			o.label("operator-lifted-above-depth")
		}
	}
	if !snapEqual(prev, next) {
		o.stateChanging++
	}
	if res.Err != "" || len(res.Conflicts) > 0 {
		o.failedOps++
	}
	return nil
}

func unionIDs(a, b Snap) []string {
	seen := map[string]bool{}
	var out []string
	for id := range a {
		seen[id] = true
		out = append(out, id)
	}
	for id := range b {
		if !seen[id] {
			out = append(out, id)
		}
	}
	sort.Strings(out)
	return out
}

func snapEqual(a, b Snap) bool {
	if len(a) != len(b) {
		return false
	}
	for id, m := range a {
		n, ok := b[id]
		if !ok || !eqMsg(m, n) {
			return false
		}
	}
	return true
}

func fmtMsg(m Msg) string {
	s := fmt.Sprintf("{%s %s %s state=%s att=%d recv=%s next=%s", m.ID, m.Route, m.Target, m.State, m.Attempt, msOf(m.Recv), msOf(m.Next))
	if m.Lease != "" || m.Until != qZero {
		s += fmt.Sprintf(" lease=%s until=%s", m.Lease, msOf(m.Until))
	}
	if m.Dead != "" {
		s += fmt.Sprintf(" dead=%q", m.Dead)
	}
	return s + fmt.Sprintf(" payload=%x hdr=%v}", m.Payload, m.Headers)
}

// ------------------------------------------------------------------------------- enqueue

func (o *qOracle) validateEnqueue(step int, prev, next Snap, r resolvedOp, res QRes, explained map[string]bool) *verifkit.Failure {
	now := r.Now
	n := len(r.Envs)
	// removed messages that side effects explain reduce the active count seen by the depth check
	activeAfterPrune, deliveredAfterPrune, queuedAfterPrune := 0, 0, 0
	for id, p := range prev {
		_, still := next[id]
		pruned := !still && o.side(p, nil, now) == sideOK
		if pruned {
			continue
		}
		switch p.State {
		case "queued":
			activeAfterPrune++
			queuedAfterPrune++
		case "leased":
			activeAfterPrune++
		case "delivered":
			deliveredAfterPrune++
		}
	}
	leasedPresent := prev.count("leased") > 0

	if res.Err != "" {
		if res.N != 0 {
			return fail("C12,C15", "refused-but-counted", step, "enqueue returned %s and count %d", res.Err, res.N)
		}
		o.label("enqueue-refused-" + res.Err)
		if leasedPresent {
			o.label("refusal-with-leased")
		}
		if res.Err == "full" && n > 1 && o.cfg.MaxDepth > 0 && activeAfterPrune < o.cfg.MaxDepth {
			o.label("batch-straddles-capacity")
		}
		// known finding signature: memory evicts (drop_oldest) and then refuses
		if o.backend == "memory" && o.cfg.Drop == "drop_oldest" {
			onlyQueuedRemoved, any := true, false
			for _, id := range unionIDs(prev, next) {
				p, inPrev := prev[id]
				nx, inNext := next[id]
				if inPrev && inNext && o.side(p, &nx, now) == sideOK {
					continue
				}
				if inPrev && !inNext && o.side(p, nil, now) == sideOK {
					continue
				}
				if inPrev && !inNext && p.State == "queued" {
					any = true
					continue
				}
				onlyQueuedRemoved = false
			}
			if any && onlyQueuedRemoved {
				f := fail("C12,C02,C13,C15", "refusal-evicted", step, "memory drop_oldest: enqueue refused with %s but evicted queued messages", res.Err)
				f.Sig = "mem-enqueue-evicts-before-reject"
				return f
			}
		}
		// drop_oldest "makes room by evicting the oldest queued messages": a refusal as full is explained only
		// when there are not enough queued messages to evict (memory with delivered retention also counts
		// delivered messages against max_depth, see DESIGN 0.2 C12). Queues an operator lifted above max_depth
		// are left alone (observed, not judged).
		if res.Err == "full" && o.cfg.Drop == "drop_oldest" && o.cfg.MaxDepth > 0 && n <= o.cfg.MaxDepth && activeAfterPrune <= o.cfg.MaxDepth {
			need := activeAfterPrune + n - o.cfg.MaxDepth
			if o.backend == "memory" && o.cfg.DelivMs > 0 {
				if d := activeAfterPrune + deliveredAfterPrune + n - o.cfg.MaxDepth; d > need {
					need = d
				}
			}
			if need <= queuedAfterPrune {
				o.label("drop-oldest-refused-with-room")
				return fail("C12", "drop-oldest-refused-with-room", step, "drop_oldest: enqueue of %d refused as full although %d queued messages could be evicted (active %d, delivered %d, max_depth %d)", n, queuedAfterPrune, activeAfterPrune, deliveredAfterPrune, o.cfg.MaxDepth)
			}
		}
		return nil // all remaining changes are judged by the generic side-effect pass
	}

	if r.Op.Batch && res.N != n {
		return fail("C15,C12", "batch-count", step, "EnqueueBatch of %d returned %d without error", n, res.N)
	}
	// locate every new message
	named := map[string]bool{}
	for _, e := range r.Envs {
		if e.ID != "" {
			if named[e.ID] {
				return fail("C02,C15", "batch-duplicate-accepted", step, "batch with duplicate id %s accepted", e.ID)
			}
			named[e.ID] = true
		}
	}
	var replacedOld []Msg
	newIDs := map[string]bool{}
	var newOrder []string // batch items are inserted in batch order
	var fresh []string
	for _, id := range next.sortedIDs() {
		if _, was := prev[id]; !was && !named[id] {
			fresh = append(fresh, id)
		}
	}
	for _, e := range r.Envs {
		id := e.ID
		if id == "" {
			if len(fresh) != 1 {
				return fail("C02", "generated-id", step, "enqueue with blank id: expected exactly one new generated id, found %v", fresh)
			}
			id = fresh[0]
			if strings.TrimSpace(id) == "" {
				return fail("C02", "generated-id-blank", step, "generated id is blank")
			}
		}
		var replaced *Msg
		if p, was := prev[id]; was && o.side(p, nil, now) == sideDepth {
			// the old dead message may have been removed by the dlq depth prune before the insert;
			// whether the depth rule really allowed that is judged with the other depth removals
			o.depthReplaced = append(o.depthReplaced, p)
			o.label("dlq-pruned-same-id")
		} else if was && o.side(p, nil, now) != sideOK {
			// legal only as "the old message was the drop_oldest victim, then the new one was stored"
			if !(o.cfg.MaxDepth > 0 && o.cfg.Drop == "drop_oldest" && p.State == "queued") {
				return fail("C02,C12", "overwrote-existing", step, "enqueue of existing id %s succeeded over %s", id, fmtMsg(p))
			}
			o.label("evicted-same-id")
			pp := p
			replaced = &pp
		}
		m, ok := next[id]
		if !ok {
			return fail("C01,C02,C12", "accepted-not-stored", step, "enqueue of %s returned nil but message is not stored", id)
		}
		want := Msg{ID: id, Route: e.Route, Target: e.Target, State: "queued", Recv: relNs(e.ReceivedAt), Next: relNs(e.NextRunAt),
			Attempt: e.Attempt, Payload: normBytes(e.Payload), Headers: normMap(e.Headers), Trace: normMap(e.Trace), Schema: 1, Until: qZero}
		if want.Recv == qZero {
			want.Recv = now
		}
		if want.Next == qZero {
			want.Next = want.Recv
		}
		if !eqMsg(want, m) {
			props := "C02,C07,C15"
			if want.Next != m.Next {
				// stored with another due time than the sender gave: offered too early, or kept back
				props += ",C05"
			}
			return fail(props, "stored-differs", step, "enqueued %s stored as %s", fmtMsg(want), fmtMsg(m))
		}
		explained[id] = true
		if replaced != nil {
			replacedOld = append(replacedOld, *replaced)
		}
		newIDs[id] = true
		newOrder = append(newOrder, id)
	}

	// evictions
	evicted := append([]Msg(nil), replacedOld...)
	for id, p := range prev {
		if _, still := next[id]; still || explained[id] {
			continue
		}
		if o.side(p, nil, now) == sideOK {
			continue
		}
		if p.State == "queued" || p.State == "leased" {
			evicted = append(evicted, p)
		}
	}
	sort.Slice(evicted, func(i, j int) bool { return evicted[i].ID < evicted[j].ID })
	if len(evicted) > 0 {
		o.label("evicted")
		if o.cfg.MaxDepth <= 0 || o.cfg.Drop != "drop_oldest" {
			return fail("C12,C02", "evicted-without-policy", step, "enqueue removed %d active messages without drop_oldest (first %s)", len(evicted), fmtMsg(evicted[0]))
		}
		for _, e := range evicted {
			explained[e.ID] = true
			if e.State != "queued" {
				return fail("C12", "evicted-leased", step, "drop_oldest evicted a leased message %s", fmtMsg(e))
			}
		}
		// "oldest": by received_at (ties free) or by insertion order
		ev := map[string]bool{}
		for _, e := range evicted {
			ev[e.ID] = true
		}
		byRecv, bySeq := true, true
		for id, p := range prev {
			if p.State != "queued" || ev[id] || newIDs[id] {
				continue
			}
			if _, still := next[id]; !still {
				continue // pruned
			}
			for _, e := range evicted {
				if e.Recv > p.Recv {
					byRecv = false
				}
				if o.insSeq[e.ID] > o.insSeq[id] {
					bySeq = false
				}
			}
		}
		if !byRecv && !bySeq {
			return fail("C12", "evicted-not-oldest", step, "drop_oldest evicted %v although older queued messages were kept", keys(ev))
		}
		if leasedPresent {
			o.label("eviction-with-leased")
		}
	}
	for _, id := range newOrder {
		o.seq++
		o.insSeq[id] = o.seq
	}
	if o.cfg.MaxDepth > 0 && !o.depthOff {
		need := activeAfterPrune + n - o.cfg.MaxDepth
		if o.backend == "memory" && o.cfg.DelivMs > 0 {
			// documented extra guard of the memory backend: queued+leased+delivered
			if nb := activeAfterPrune + deliveredAfterPrune + n - o.cfg.MaxDepth; nb > need {
				need = nb
			}
		}
		if need < 0 {
			need = 0
		}
		if len(evicted) != need {
			return fail("C12", "eviction-count", step, "enqueue of %d with active=%d max_depth=%d evicted %d, expected %d", n, activeAfterPrune, o.cfg.MaxDepth, len(evicted), need)
		}
		if act := next.count("queued", "leased"); act > o.cfg.MaxDepth {
			return fail("C12", "admitted-above-depth", step, "after enqueue active=%d exceeds max_depth=%d", act, o.cfg.MaxDepth)
		}
		if n > 1 && activeAfterPrune+n > o.cfg.MaxDepth {
			o.label("batch-straddles-capacity")
		}
	}
	return nil
}

func keys(m map[string]bool) []string {
	var out []string
	for k := range m {
		out = append(out, k)
	}
	sort.Strings(out)
	return out
}

// ------------------------------------------------------------------------------- dequeue

func (o *qOracle) validateDequeue(step int, prev, next Snap, r resolvedOp, res QRes, explained map[string]bool) *verifkit.Failure {
	op := r.Op
	now := r.Now
	if res.Err != "" {
		return fail("HARNESS", "dequeue-error", step, "dequeue returned %s", res.Err)
	}
	batch := capBatch(op.N)
	ttl := ms(op.TTLMs)
	if ttl <= 0 {
		ttl = 30 * time.Second
	}
	match := func(m Msg) bool {
		return (op.Route == "" || m.Route == op.Route) && (op.Target == "" || m.Target == op.Target)
	}
	seen := map[string]bool{}
	reasons := map[string]bool{}
	for _, it := range res.Items {
		if seen[it.ID] {
			return fail("C03,C02", "same-message-twice", step, "dequeue returned %s twice (a message is duplicated)", it.ID)
		}
		seen[it.ID] = true
		p, ok := prev[it.ID]
		if !ok {
			return fail("C02,C03", "dequeued-unknown", step, "dequeue returned message %s that was not stored", it.ID)
		}
		n, ok := next[it.ID]
		if !ok {
			return fail("C02,C03", "dequeued-vanished", step, "dequeue returned %s but it is not stored afterwards", it.ID)
		}
		switch {
		case p.State == "queued" && (p.Next == qZero || p.Next <= now):
			if p.Attempt > 0 {
				reasons["redelivery"] = true
			} else {
				reasons["fresh"] = true
			}
		case p.State == "queued":
			return fail("C03,C05", "not-due", step, "dequeue at %s returned %s which is not due before %s", msOf(now), it.ID, msOf(p.Next))
		case isExpired(p, now):
			reasons["expired"] = true
			o.label("dequeue-after-expiry")
		case p.State == "leased":
			return fail("C03", "leased-unexpired-returned", step, "dequeue at %s returned %s which is leased until %s", msOf(now), it.ID, msOf(p.Until))
		default:
			return fail("C03", "wrong-state-returned", step, "dequeue returned %s in state %s", it.ID, p.State)
		}
		if !match(p) {
			return fail("C05,C03", "filter-ignored", step, "dequeue(route=%q,target=%q) returned %s of %s %s", op.Route, op.Target, it.ID, p.Route, p.Target)
		}
		if n.State != "leased" || n.Lease == "" {
			return fail("C03", "not-leased-after-dequeue", step, "dequeued %s stored as %s", it.ID, fmtMsg(n))
		}
		if !eqMsg(it, n) {
			return fail("C03,C07,C02", "returned-differs-from-stored", step, "dequeue returned %s but stored %s", fmtMsg(it), fmtMsg(n))
		}
		if n.Attempt != p.Attempt+1 {
			return fail("C03", "attempt-increment", step, "dequeue of %s moved attempt %d -> %d", it.ID, p.Attempt, n.Attempt)
		}
		if o.issued[n.Lease] {
			return fail("C03", "lease-id-reused", step, "dequeue of %s reused lease id %s", it.ID, n.Lease)
		}
		o.issued[n.Lease] = true
		if !atOrSat(n.Until, satAdd(now, int64(ttl))) {
			return fail("C03,C05", "lease-until", step, "dequeue of %s at %s ttl %s set lease_until %s", it.ID, msOf(now), ttl, msOf(n.Until))
		}
		if !sameImmutable(p, n) || n.Dead != "" {
			return fail("C02,C07", "dequeue-altered-message", step, "dequeue altered %s -> %s", fmtMsg(p), fmtMsg(n))
		}
		explained[it.ID] = true
	}
	if len(res.Items) > batch {
		return fail("C05", "more-than-batch", step, "dequeue batch %d returned %d", batch, len(res.Items))
	}
	// starvation: ready messages left behind although capacity was requested
	left, maybe := 0, 0
	for id, p := range prev {
		if seen[id] || !match(p) {
			continue
		}
		if _, still := next[id]; !still {
			continue
		}
		switch {
		case p.State == "queued" && (p.Next == qZero || p.Next <= now):
			left++
			reasons["left-ready"] = true
		case p.State == "queued":
			reasons["delayed"] = true
		case isExpired(p, now):
			if o.sub && o.backend == "sqlite" && p.Until > now-int64(10*time.Millisecond) {
				maybe++
			} else {
				left++
			}
		}
	}
	for _, p := range prev {
		if !match(p) && p.State == "queued" {
			reasons["other-route"] = true
		}
	}
	if left > 0 && len(res.Items) < batch {
		return fail("C05", "ready-left-behind", step, "dequeue(route=%q,target=%q,batch=%d) at %s returned %d items but left %d ready messages", op.Route, op.Target, batch, msOf(now), len(res.Items), left)
	}
	ready := len(res.Items) + left
	if ready > 0 && (batch < ready || batch > ready) && len(reasons) >= 2 {
		o.label("nt-dequeue-mixed-readiness")
	}
	if batch < ready {
		o.label("batch<ready")
	}
	if ready > 0 && batch > ready {
		o.label("batch>ready>0")
	}
	if maybe > 0 {
		o.label("sub-granularity-maybe")
	}
	return nil
}

// ------------------------------------------------------------------------- lease mutations

func (o *qOracle) leaseEffect(step int, kind string, p Msg, next Snap, r resolvedOp, explained map[string]bool) *verifkit.Failure {
	f := o.leaseEffect1(step, kind, p, next, r, explained)
	if f != nil {
		// a live lease that was presented correctly and whose message is back in the queue as if the
		// lease had expired: the lease ended without ack, nack, expiry or operator (exclusivity, C03)
		if n, ok := next[p.ID]; ok && n.State == "queued" && clearedLease(n) && n.Next == r.Now && !(kind == "nack" && r.Dur <= 0) && !propIn(f.Prop, "C03") {
			f.Prop += ",C03"
		}
	}
	return f
}

func (o *qOracle) leaseEffect1(step int, kind string, p Msg, next Snap, r resolvedOp, explained map[string]bool) *verifkit.Failure {
	now := r.Now
	n, ok := next[p.ID]
	explained[p.ID] = true
	switch kind {
	case "ack":
		if o.cfg.DelivMs > 0 {
			if !ok || n.State != "delivered" || !clearedLease(n) || n.Next != now || n.Dead != "" || n.Attempt != p.Attempt || !sameImmutable(p, n) {
				return fail("C02", "ack-effect", step, "ack with delivered retention: %s -> %v", fmtMsg(p), fmtOpt(n, ok))
			}
		} else if ok {
			return fail("C02", "ack-effect", step, "ack returned nil but message still stored: %s", fmtMsg(n))
		}
	case "nack":
		d := r.Dur
		if d < 0 {
			d = 0
		}
		if !ok || n.State != "queued" || !clearedLease(n) || !atOrSat(n.Next, satAdd(now, int64(d))) || n.Dead != "" || n.Attempt != p.Attempt || !sameImmutable(p, n) {
			return fail("C02,C05", "nack-effect", step, "nack(delay=%s) at %s: %s -> %v", d, msOf(now), fmtMsg(p), fmtOpt(n, ok))
		}
	case "ext":
		if !ok || n.State != "leased" || n.Lease != p.Lease || !atOrSat(n.Until, satAdd(p.Until, int64(r.Dur))) || n.Attempt != p.Attempt || !sameImmutable(p, n) || n.Dead != p.Dead {
			return fail("C02,C03", "extend-effect", step, "extend(%s): %s -> %v", r.Dur, fmtMsg(p), fmtOpt(n, ok))
		}
	case "dead":
		wantReason := r.Op.Reason
		if !ok || n.State != "dead" || !clearedLease(n) || n.Next != now || n.Attempt != p.Attempt || !sameImmutable(p, n) ||
			!(n.Dead == wantReason || (strings.TrimSpace(wantReason) == "" && n.Dead == "")) {
			return fail("C02,C06", "dead-effect", step, "mark dead(%q): %s -> %v", wantReason, fmtMsg(p), fmtOpt(n, ok))
		}
	}
	return nil
}

func fmtOpt(m Msg, ok bool) string {
	if !ok {
		return "<removed>"
	}
	return fmtMsg(m)
}

func (o *qOracle) validateLeaseSingle(step int, prev, next Snap, r resolvedOp, res QRes, explained map[string]bool) *verifkit.Failure {
	kind := r.Op.K
	now := r.Now
	raw := r.Leases[0]
	trimmed := strings.TrimSpace(raw)
	if kind == "ext" && r.Dur <= 0 {
		// non-positive extend is a documented no-op; a conflict answer for a dead lease is accepted too
		if res.Err != "" {
			if h, ok := holderOf(prev, raw); ok && !isExpired(h, now) {
				o.label("valid-op-refused")
			}
		}
		return nil
	}
	h, ok := holderOf(prev, raw)
	if !ok && trimmed != raw {
		h, ok = holderOf(prev, trimmed) // sqlite trims single lease ids, memory does not: both accepted
		if ok {
			o.label("padded-single-lease")
		}
	}
	valid := ok && !isExpired(h, now)
	switch res.Err {
	case "":
		if !valid {
			if ok {
				return fail("C04", "expired-lease-accepted", step, "%s with lease %q accepted at %s although it expired at %s", kind, raw, msOf(now), msOf(h.Until))
			}
			return fail("C04", "stale-lease-accepted", step, "%s with lease %q accepted although no message holds it", kind, raw)
		}
		o.label("lease-op-ok")
		return o.leaseEffect(step, kind, h, next, r, explained)
	case "notfound", "expired":
		if valid {
			o.label("valid-op-refused")
		} else {
			o.noteStale(prev, raw, now)
		}
		return nil
	}
	return fail("HARNESS", "lease-op-error", step, "%s returned %s", kind, res.Err)
}

// noteStale labels the interesting stale-lease situations for the C04 non-trivial rule.
func (o *qOracle) noteStale(prev Snap, lease string, now int64) {
	lease = strings.TrimSpace(lease)
	if lease == "" {
		o.label("blank-lease")
		return
	}
	if !o.issued[lease] {
		o.label("unknown-lease")
		return
	}
	if h, ok := holderOf(prev, lease); ok {
		if isExpired(h, now) {
			o.label("stale-expired-current")
		}
		return
	}
	o.label("stale-superseded")
	if o.newerEpoch(prev, lease) {
		o.label("nt-stale-vs-newer-epoch")
	}
}

func (o *qOracle) validateLeaseBatch(step int, prev, next Snap, r resolvedOp, res QRes, explained map[string]bool) *verifkit.Failure {
	kind := map[string]string{"ackb": "ack", "nackb": "nack", "deadb": "dead"}[r.Op.K]
	now := r.Now
	if res.Err != "" {
		return fail("HARNESS", "lease-batch-error", step, "%s returned %s", r.Op.K, res.Err)
	}
	var want []QConf
	succeeded := 0
	seen := map[string]bool{}
	staleInBatch, validInBatch := false, false
	for _, raw := range r.Leases {
		lt := strings.TrimSpace(raw)
		if lt == "" {
			want = append(want, QConf{Lease: raw})
			continue
		}
		if seen[lt] {
			want = append(want, QConf{Lease: lt})
			o.label("duplicate-lease-in-batch")
			continue
		}
		seen[lt] = true
		h, ok := holderOf(prev, lt)
		switch {
		case !ok:
			want = append(want, QConf{Lease: lt})
			if o.issued[lt] {
				staleInBatch = true
				if o.newerEpoch(prev, lt) {
					o.label("nt-stale-vs-newer-epoch")
				}
			}
		case isExpired(h, now):
			want = append(want, QConf{Lease: lt, Expired: true})
			staleInBatch = true
		default:
			validInBatch = true
			succeeded++
			if f := o.leaseEffect(step, kind, h, next, r, explained); f != nil {
				f.Prop = "C04," + f.Prop
				return f
			}
		}
	}
	if staleInBatch && validInBatch {
		o.label("nt-stale-in-batch-with-valid")
	}
	if res.N != succeeded {
		return fail("C04", "batch-succeeded-count", step, "%s%v reported %d succeeded, %d leases were valid", r.Op.K, r.Leases, res.N, succeeded)
	}
	if !sameConflicts(want, res.Conflicts) {
		return fail("C04", "batch-conflicts", step, "%s%v conflicts %v, expected %v", r.Op.K, r.Leases, res.Conflicts, want)
	}
	return nil
}

func sameConflicts(a, b []QConf) bool {
	if len(a) != len(b) {
		return false
	}
	key := func(c QConf) string { return fmt.Sprintf("%q/%v", c.Lease, c.Expired) }
	cnt := map[string]int{}
	for _, c := range a {
		cnt[key(c)]++
	}
	for _, c := range b {
		cnt[key(c)]--
	}
	for _, v := range cnt {
		if v != 0 {
			return false
		}
	}
	return true
}

// newerEpoch reports whether the message lease id `lease` was once granted for is currently
// leased under another lease id. Needs the wallet; set by the runner.
func (o *qOracle) newerEpoch(prev Snap, lease string) bool {
	if o.walletLookup == nil {
		return false
	}
	msg := o.walletLookup(lease)
	if msg == "" {
		return false
	}
	m, ok := prev[msg]
	return ok && m.State == "leased" && m.Lease != lease
}

// ------------------------------------------------------------------------ operator mutations

var manageAllowed = map[string][]string{
	"cancel": {"queued", "leased", "dead"}, "cancelf": {"queued", "leased", "dead"},
	"requeue": {"dead", "canceled"}, "requeuef": {"dead", "canceled"},
	"resume": {"canceled"}, "resumef": {"canceled"},
	"rqdead": {"dead"}, "deldead": {"dead"},
}

func inList(s string, l []string) bool {
	for _, x := range l {
		if x == s {
			return true
		}
	}
	return false
}

// manageResult reports whether n is the documented result of applying the operator op to p.
func manageResult(kind string, p Msg, n Msg, ok bool, now int64) bool {
	if kind == "deldead" {
		return !ok
	}
	if !ok || !clearedLease(n) || n.Dead != "" || n.Next != now || n.Attempt != p.Attempt || !sameImmutable(p, n) {
		return false
	}
	switch kind {
	case "cancel", "cancelf":
		return n.State == "canceled"
	default:
		return n.State == "queued"
	}
}

func (o *qOracle) validateManageIDs(step int, prev, next Snap, r resolvedOp, res QRes, explained map[string]bool) *verifkit.Failure {
	kind := r.Op.K
	if res.Err != "" {
		return fail("HARNESS", "manage-error", step, "%s returned %s", kind, res.Err)
	}
	allowed := manageAllowed[kind]
	changed := 0
	wrongState := false
	for _, id := range normIDs(r.IDs) {
		p, ok := prev[id]
		if !ok {
			continue
		}
		if !inList(p.State, allowed) {
			wrongState = true
			continue
		}
		n, nok := next[id]
		if !manageResult(kind, p, n, nok, r.Now) {
			return fail("C14,C02", "manage-effect", step, "%s(%v): %s -> %v", kind, r.IDs, fmtMsg(p), fmtOpt(n, nok))
		}
		explained[id] = true
		changed++
		if p.State == "leased" {
			o.label("op-mut-on-leased")
		}
	}
	if res.N != changed || res.Matched != changed {
		return fail("C14", "manage-count", step, "%s(%v) reported n=%d matched=%d, %d messages were eligible", kind, r.IDs, res.N, res.Matched, changed)
	}
	if changed > 0 && wrongState {
		o.label("nt-manage-ids-mixed-states")
	}
	return nil
}

func (o *qOracle) validateManageFilter(step int, prev, next Snap, r resolvedOp, res QRes, explained map[string]bool) *verifkit.Failure {
	op := r.Op
	kind := op.K
	now := r.Now
	if res.Err != "" {
		return fail("HARNESS", "manage-error", step, "%s returned %s", kind, res.Err)
	}
	allowed := manageAllowed[kind]
	if op.State != "" {
		if inList(op.State, allowed) {
			allowed = []string{op.State}
		} else {
			allowed = nil
		}
	}
	before := relNs(r.Before)
	var cands []Msg
	otherwiseMatching := 0 // messages that match route/target/before but are in a state the op must not touch
	for _, p := range prev {
		if op.Route != "" && p.Route != op.Route {
			continue
		}
		if op.Target != "" && p.Target != op.Target {
			continue
		}
		if before != qZero && !(p.Recv < before) {
			continue
		}
		if !inList(p.State, allowed) {
			otherwiseMatching++
			continue
		}
		cands = append(cands, p)
	}
	limit := capLimit(op.N)
	wantN := len(cands)
	if wantN > limit {
		wantN = limit
	}
	// the state machine first: whatever the filter says, the operation may only move messages out of
	// the states it is defined for
	for _, p := range prev {
		if inList(p.State, manageAllowed[kind]) {
			continue
		}
		n, ok := next[p.ID]
		var np *Msg
		if ok {
			np = &n
		}
		if v := o.side(p, np, now); v != sideOK && !(np == nil && v == sideDepth) {
			return fail("C02,C14", "op-moved-illegal-source", step, "%s(route=%q target=%q state=%q) moved a %s message: %s -> %s", kind, op.Route, op.Target, op.State, p.State, fmtMsg(p), fmtOpt(n, ok))
		}
	}
	if res.Preview != op.Preview {
		return fail("C14", "preview-flag", step, "%s preview_only=%v answered preview_only=%v", kind, op.Preview, res.Preview)
	}
	if res.Matched != wantN {
		return fail("C14", "filter-matched", step, "%s(route=%q target=%q state=%q before=%s limit=%d preview=%v) matched=%d, selector says %d of %d candidates",
			kind, op.Route, op.Target, op.State, msOf(before), op.N, op.Preview, res.Matched, wantN, len(cands))
	}
	var sel, unsel []Msg
	for _, p := range cands {
		n, ok := next[p.ID]
		if manageResult(kind, p, n, ok, now) && !(ok && eqMsg(p, n)) {
			sel = append(sel, p)
			explained[p.ID] = true
			if p.State == "leased" {
				o.label("op-mut-on-leased")
			}
			continue
		}
		unsel = append(unsel, p)
	}
	if op.Preview {
		if len(sel) > 0 {
			return fail("C14", "preview-mutated", step, "%s preview changed %d messages (first %s)", kind, len(sel), sel[0].ID)
		}
		if res.N != 0 {
			return fail("C14", "preview-count", step, "%s preview reported %d changed", kind, res.N)
		}
		o.label("filter-preview")
		if wantN > 0 {
			o.label("nt-filter-preview-nonempty")
		}
		return nil
	}
	if len(sel) != wantN {
		return fail("C14", "filter-selected-count", step, "%s(route=%q target=%q state=%q before=%s limit=%d) changed %d messages, selector says %d of %d candidates",
			kind, op.Route, op.Target, op.State, msOf(before), op.N, len(sel), wantN, len(cands))
	}
	if res.N != len(sel) {
		return fail("C14", "filter-count", step, "%s reported %d changed, %d messages actually changed", kind, res.N, len(sel))
	}
	for _, u := range unsel {
		for _, s := range sel {
			if u.Recv > s.Recv {
				return fail("C14", "filter-not-newest-first", step, "%s limit=%d changed %s (recv %s) but skipped newer %s (recv %s)", kind, op.N, s.ID, msOf(s.Recv), u.ID, msOf(u.Recv))
			}
		}
	}
	if len(sel) > 0 && len(sel) < len(prev) && otherwiseMatching > 0 {
		o.label("nt-filter-strict-subset")
	}
	if len(sel) > 0 && len(unsel) > 0 {
		o.label("filter-limit-cut")
	}
	return nil
}

// --------------------------------------------------------------------------------- reads

func (o *qOracle) validateRead(step int, next Snap, r resolvedOp, res QRes) *verifkit.Failure {
	op := r.Op
	switch op.K {
	case "stats":
		if res.Err != "" {
			return fail("HARNESS", "stats-error", step, "stats returned %s", res.Err)
		}
		hist := map[string]int{}
		for _, m := range next {
			hist[m.State]++
		}
		if res.Total != len(next) || !sameHist(hist, res.ByState) {
			return fail("C02", "stats-histogram", step, "stats total=%d by_state=%v, stored %d %v", res.Total, res.ByState, len(next), hist)
		}
	case "lookup":
		var want []string
		for _, id := range normIDs(r.IDs) {
			if m, ok := next[id]; ok {
				want = append(want, m.ID+"|"+m.Route+"|"+m.State)
			}
		}
		got := append([]string(nil), res.Lookup...)
		sort.Strings(want)
		sort.Strings(got)
		if strings.Join(want, ",") != strings.Join(got, ",") {
			return fail("C02", "lookup", step, "lookup(%v) = %v, stored %v", r.IDs, got, want)
		}
	case "list", "listdead":
		order := strings.ToLower(strings.TrimSpace(op.Order))
		if op.K == "list" && order != "" && order != "asc" && order != "desc" {
			if res.Err == "" {
				return fail("C13", "list-invalid-order-accepted", step, "list order %q accepted", op.Order)
			}
			return nil
		}
		if res.Err != "" {
			return fail("HARNESS", "list-error", step, "%s returned %s", op.K, res.Err)
		}
		before := relNs(r.Before)
		var cands []Msg
		for _, m := range next {
			if op.Route != "" && m.Route != op.Route {
				continue
			}
			if op.K == "list" {
				if op.Target != "" && m.Target != op.Target {
					continue
				}
				if op.State != "" && m.State != op.State {
					continue
				}
			} else if m.State != "dead" {
				continue
			}
			if before != qZero && !(m.Recv < before) {
				continue
			}
			cands = append(cands, m)
		}
		asc := op.K == "list" && order == "asc"
		sort.Slice(cands, func(i, j int) bool {
			if cands[i].Recv == cands[j].Recv {
				if asc {
					return cands[i].ID < cands[j].ID
				}
				return cands[i].ID > cands[j].ID
			}
			if asc {
				return cands[i].Recv < cands[j].Recv
			}
			return cands[i].Recv > cands[j].Recv
		})
		limit := capLimit(op.N)
		wantN := len(cands)
		if wantN > limit {
			wantN = limit
		}
		if len(res.Items) != wantN {
			return fail("C02", "list-count", step, "%s returned %d items, expected %d of %d", op.K, len(res.Items), wantN, len(cands))
		}
		seen := map[string]bool{}
		for i, it := range res.Items {
			if seen[it.ID] {
				return fail("C02", "list-duplicate", step, "%s returned %s twice", op.K, it.ID)
			}
			seen[it.ID] = true
			m, ok := next[it.ID]
			if !ok {
				return fail("C02", "list-unknown", step, "%s returned %s which is not stored", op.K, it.ID)
			}
			if op.K == "list" {
				if it.ID != cands[i].ID {
					return fail("C02,C13", "list-order", step, "list position %d is %s, expected %s", i, it.ID, cands[i].ID)
				}
			} else {
				// ListDead: tie order is left to the backend; the chosen set must be a newest-first prefix
				if i > 0 && res.Items[i-1].Recv < it.Recv {
					return fail("C02", "listdead-order", step, "listdead not newest first at %d", i)
				}
			}
			w := m
			if op.Inc&1 == 0 {
				w.Payload = nil
			}
			if op.Inc&2 == 0 {
				w.Headers = nil
			}
			if op.Inc&4 == 0 {
				w.Trace = nil
			}
			if it.Route != w.Route || it.Target != w.Target || it.State != w.State || it.Recv != w.Recv || it.Attempt != w.Attempt ||
				it.Dead != w.Dead || string(it.Payload) != string(w.Payload) || !eqMap(it.Headers, w.Headers) || !eqMap(it.Trace, w.Trace) ||
				(w.State != "leased" && it.Next != w.Next) {
				return fail("C02,C07", "list-item-differs", step, "%s item %s, stored %s", op.K, fmtMsg(it), fmtMsg(w))
			}
		}
		if op.K == "listdead" && wantN > 0 {
			minRecv := res.Items[len(res.Items)-1].Recv
			for _, c := range cands {
				if c.Recv > minRecv && !seen[c.ID] {
					return fail("C02", "listdead-skipped-newer", step, "listdead skipped %s (recv %s) newer than returned", c.ID, msOf(c.Recv))
				}
			}
		}
	}
	return nil
}

func sameHist(a, b map[string]int) bool {
	for k, v := range a {
		if b[k] != v {
			return false
		}
	}
	for k, v := range b {
		if a[k] != v {
			return false
		}
	}
	return true
}
