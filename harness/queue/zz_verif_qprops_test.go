//go:build verif

package queue

import (
	"encoding/json"
	"fmt"
	"sort"
	"strings"
	"testing"

	"github.com/nuetzliches/hookaido/internal/verifkit"
	"pgregory.net/rapid"
)

type qOutcome struct {
	Failure *verifkit.Failure
	Labels  []string
	Known   []string
	Foreign []string
	NonTriv bool
	Steps   int
	Skipped string
}

func propIn(props, id string) bool {
	for _, p := range strings.Split(props, ",") {
		if strings.TrimSpace(p) == id {
			return true
		}
	}
	return false
}

func appendWallet(w *qWorld, items []Msg) {
	sorted := append([]Msg(nil), items...)
	sort.Slice(sorted, func(i, j int) bool { return w.canonID(sorted[i].ID) < w.canonID(sorted[j].ID) })
	for _, m := range sorted {
		w.wallet = append(w.wallet, walletEntry{Lease: m.Lease, Msg: m.ID, Until: m.Until})
	}
}

func (w *qWorld) canonID(id string) string {
	for k, g := range w.gen {
		if g == id {
			return fmt.Sprintf("@%d", k)
		}
	}
	return id
}

func (w *qWorld) canonLease(l string) string {
	for k, e := range w.wallet {
		if e.Lease == l {
			return fmt.Sprintf("L%d", k)
		}
	}
	return l
}

func (w *qWorld) walletMsg(lease string) string {
	for _, e := range w.wallet {
		if e.Lease == lease {
			return e.Msg
		}
	}
	return ""
}

// runQCase executes a single-backend case under the transition validator. prop is the
// property whose clauses are reported; clauses of other properties end the case as "foreign".
func runQCase(c QCase, prop string, sub bool, tolerateKnown bool) qOutcome {
	var out qOutcome
	clk := &qClock{}
	w, err := openQStore(c.Cfg, c.Cfg.Backend, clk, "")
	if err != nil {
		out.Failure = fail("HARNESS", "open", 0, "open store: %v", err)
		return out
	}
	defer w.close()
	o := newQOracle(c.Cfg, c.Cfg.Backend, sub)
	o.walletLookup = w.walletMsg
	prev, err := w.snapshot()
	if err != nil {
		out.Failure = fail("HARNESS", "snapshot", 0, "%v", err)
		return out
	}
	grants := map[string]int{}
	finish := func() qOutcome {
		for l := range o.labels {
			out.Labels = append(out.Labels, l)
		}
		sort.Strings(out.Labels)
		out.NonTriv = qNonTrivial(prop, o, grants)
		return out
	}
	for i, op := range c.Ops {
		out.Steps = i + 1
		if op.K == "adv" {
			w.advance(op, prev)
			continue
		}
		if op.K == "reopen" && w.sql == nil {
			continue
		}
		r := w.resolve(op, prev)
		res := w.exec(r)
		// exec appended wallet entries in return order; re-append in canonical order
		if op.K == "deq" {
			w.wallet = w.wallet[:len(w.wallet)-len(res.Items)]
			appendWallet(w, res.Items)
			for _, it := range res.Items {
				grants[it.ID]++
			}
		}
		next, err := w.snapshot()
		if err != nil {
			out.Failure = fail("C02", "snapshot", i, "snapshot after %s: %v", op.K, err)
			return finish()
		}
		w.noteGenerated(prev, next, r)
		f := o.validate(i, prev, next, r, res)
		if f == nil && w.sql != nil {
			q, l, cerr := w.sqliteCounters()
			if cerr != nil {
				f = fail("HARNESS", "counters", i, "%v", cerr)
			} else if q != next.count("queued") || l != next.count("leased") {
				f = fail("C12,C02", "sqlite-counters", i, "queue_counters queued=%d leased=%d but rows queued=%d leased=%d", q, l, next.count("queued"), next.count("leased"))
			}
		}
		if f == nil && w.mem != nil {
			// the memory backend finds a message by its lease through a second index; a leased message that
			// index no longer knows can be neither settled nor extended by its holder, and never expires
			// (seed C14-15: a preview_only cancel by filter dropped the index entries of the leases it matched)
			if id, lease := w.memLeaseIndexGap(); id != "" {
				f = fail("C14,C04,C02,C03", "memory-lease-index", i, "after %s: message %s is leased under %s but the store's lease index has no entry for it", op.K, id, lease)
			}
		}
		if f != nil {
			switch {
			case f.Sig != "" && tolerateKnown && verifkit.Known(f.Sig):
				out.Known = append(out.Known, f.Sig)
				return finish()
			case propIn(f.Prop, prop) || f.Prop == "HARNESS":
				out.Failure = f
				return finish()
			default:
				out.Foreign = append(out.Foreign, f.Prop+":"+f.Clause)
				return finish()
			}
		}
		prev = next
	}
	return finish()
}

func qNonTrivial(prop string, o *qOracle, grants map[string]int) bool {
	has := func(l string) bool { return o.labels[l] }
	switch prop {
	case "C02":
		return o.stateChanging >= 6 && (o.failedOps > 0 || has("op-mut-on-leased") || has("expired-then-pruned") || has("pruned-by-age") || has("pruned-by-dlq-depth"))
	case "C03":
		for _, n := range grants {
			if n >= 2 {
				return true
			}
		}
		return has("dequeue-after-expiry")
	case "C04":
		return has("nt-stale-vs-newer-epoch") || has("nt-stale-in-batch-with-valid")
	case "C05":
		return has("nt-dequeue-mixed-readiness")
	case "C12":
		return has("refusal-with-leased") || has("eviction-with-leased") || has("batch-straddles-capacity")
	case "C14":
		return has("nt-filter-strict-subset") || has("nt-manage-ids-mixed-states") || has("nt-filter-preview-nonempty")
	}
	return o.stateChanging >= 6
}

type qPropDef struct {
	prop    string
	profile func() qProfile
	sub     bool
}

var qProps = map[string]qPropDef{
	"TestProp_C02_Store":          {"C02", profileC02, false},
	"TestProp_C03_Sequential":     {"C03", profileC03, false},
	"TestProp_C04_Store":          {"C04", profileC04, false},
	"TestProp_C05_Store":          {"C05", profileC05, false},
	"TestProp_C05_SubGranularity": {"C05", profileC05Sub, true},
	"TestProp_C12_Store":          {"C12", profileC12, false},
	"TestProp_C14_Store":          {"C14", profileC14, false},
	"TestProp_C14_BigLists":       {"C14", profileC14, false},
	// C01's share of the store tier: an enqueue that returns success has stored its message (full and
	// nearly full queues under both drop policies, where admission and eviction interact)
	"TestProp_C01_Admission": {"C01", profileC12, false},
}

func qProp(t *testing.T, test string) {
	def := qProps[test]
	p := def.profile()
	gen := genQCase(p)
	rapid.Check(t, func(rt *rapid.T) {
		c := gen.Draw(rt, "case")
		out := runQCase(c, def.prop, def.sub, true)
		verifkit.Emit(verifkit.Record{Prop: def.prop, Test: test, Hash: verifkit.Hash(c), NonTrivial: out.NonTriv,
			Labels: out.Labels, Known: out.Known, Foreign: out.Foreign}, c)
		if out.Failure != nil {
			verifkit.SaveFailing(test, c, out.Failure)
			rt.Fatalf("%v", out.Failure)
		}
	})
}

func TestProp_C02_Store(t *testing.T)          { qProp(t, "TestProp_C02_Store") }
func TestProp_C03_Sequential(t *testing.T)     { qProp(t, "TestProp_C03_Sequential") }
func TestProp_C04_Store(t *testing.T)          { qProp(t, "TestProp_C04_Store") }
func TestProp_C05_Store(t *testing.T)          { qProp(t, "TestProp_C05_Store") }
func TestProp_C05_SubGranularity(t *testing.T) { qProp(t, "TestProp_C05_SubGranularity") }
func TestProp_C12_Store(t *testing.T)          { qProp(t, "TestProp_C12_Store") }
func TestProp_C14_Store(t *testing.T)          { qProp(t, "TestProp_C14_Store") }
func TestProp_C01_Admission(t *testing.T)      { qProp(t, "TestProp_C01_Admission") }

// TestReplay_Q re-executes saved cases without rapid (the plain regression tier).
func TestReplay_Q(t *testing.T) {
	for test, def := range qProps {
		for _, rf := range verifkit.ReplayFiles(test) {
			var c QCase
			if err := json.Unmarshal(rf.Case, &c); err != nil {
				fmt.Printf("REPLAY-ERROR file=%s err=%v\n", rf.Path, err)
				continue
			}
			out := runQCase(c, def.prop, def.sub, false)
			verifkit.ReportReplay(rf, out.Failure)
		}
	}
	replayC05Big()
	replayC05Wait()
	replayC07Batch()
	replayInterleaved()
	for _, rf := range append(verifkit.ReplayFiles("TestProp_C01_StoreCrash"), verifkit.ReplayFiles("TestProp_C15_BatchCrash")...) {
		var c C01Case
		if err := json.Unmarshal(rf.Case, &c); err != nil {
			fmt.Printf("REPLAY-ERROR file=%s err=%v\n", rf.Path, err)
			continue
		}
		out := runC01Store(c, false)
		verifkit.ReportReplay(rf, out.Failure)
	}
	for _, rf := range append(verifkit.ReplayFiles("TestProp_C13_LockStep"), verifkit.ReplayFiles("TestProp_C13_LongLockStep")...) {
		var c QCase
		if err := json.Unmarshal(rf.Case, &c); err != nil {
			fmt.Printf("REPLAY-ERROR file=%s err=%v\n", rf.Path, err)
			continue
		}
		out := runQLockStep(c, false)
		verifkit.ReportReplay(rf, out.Failure)
	}
}
