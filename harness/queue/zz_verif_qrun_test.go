//go:build verif

package queue

import (
	"context"
	"database/sql"
	"errors"
	"fmt"
	"os"
	"path/filepath"
	"sort"
	"strconv"
	"strings"
	"sync"
	"sync/atomic"
	"time"

	"github.com/nuetzliches/hookaido/internal/verifkit"
)

// Msg is the normalised, comparable form of a stored message.
type Msg struct {
	ID      string            `json:"id"`
	Route   string            `json:"route"`
	Target  string            `json:"target"`
	State   string            `json:"state"`
	Recv    int64             `json:"recv"` // ns relative to qT0 (0 == zero time)
	Next    int64             `json:"next"`
	Attempt int               `json:"attempt"`
	Payload []byte            `json:"payload,omitempty"`
	Headers map[string]string `json:"headers,omitempty"`
	Trace   map[string]string `json:"trace,omitempty"`
	Dead    string            `json:"dead,omitempty"`
	Schema  int               `json:"schema"`
	Lease   string            `json:"lease,omitempty"`
	Until   int64             `json:"until,omitempty"`
}

const qZero = int64(-1 << 62) // marker for zero time

func relNs(t time.Time) int64 {
	if t.IsZero() {
		return qZero
	}
	return t.Sub(qT0).Nanoseconds()
}

func msOf(ns int64) string {
	if ns == qZero {
		return "zero"
	}
	return strconv.FormatFloat(float64(ns)/1e6, 'f', -1, 64) + "ms"
}

func normMap(m map[string]string) map[string]string {
	if len(m) == 0 {
		return nil
	}
	out := make(map[string]string, len(m))
	for k, v := range m {
		out[k] = v
	}
	return out
}

func normBytes(b []byte) []byte {
	if len(b) == 0 {
		return nil
	}
	return append([]byte(nil), b...)
}

func msgFromEnv(e Envelope) Msg {
	return Msg{ID: e.ID, Route: e.Route, Target: e.Target, State: string(e.State), Recv: relNs(e.ReceivedAt),
		Next: relNs(e.NextRunAt), Attempt: e.Attempt, Payload: normBytes(e.Payload), Headers: normMap(e.Headers),
		Trace: normMap(e.Trace), Dead: e.DeadReason, Schema: e.SchemaVersion, Lease: e.LeaseID, Until: relNs(e.LeaseUntil)}
}

func eqMap(a, b map[string]string) bool {
	if len(a) != len(b) {
		return false
	}
	for k, v := range a {
		if w, ok := b[k]; !ok || w != v {
			return false
		}
	}
	return true
}

func sameImmutable(a, b Msg) bool {
	return a.ID == b.ID && a.Route == b.Route && a.Target == b.Target && a.Recv == b.Recv &&
		string(a.Payload) == string(b.Payload) && eqMap(a.Headers, b.Headers) && eqMap(a.Trace, b.Trace) && a.Schema == b.Schema
}

// eqMsg compares all fields. next_run_at of a *leased* message is an implementation detail
// (both backends park it at lease_until) and is not compared while leased.
func eqMsg(a, b Msg) bool {
	if !sameImmutable(a, b) || a.State != b.State || a.Attempt != b.Attempt || a.Dead != b.Dead || a.Lease != b.Lease || a.Until != b.Until {
		return false
	}
	if a.State != "leased" && a.Next != b.Next {
		return false
	}
	return true
}

type Snap map[string]Msg

func (s Snap) sortedIDs() []string {
	ids := make([]string, 0, len(s))
	for id := range s {
		ids = append(ids, id)
	}
	sort.Strings(ids)
	return ids
}

func (s Snap) count(states ...string) int {
	n := 0
	for _, m := range s {
		for _, st := range states {
			if m.State == st {
				n++
			}
		}
	}
	return n
}

// QRes is the normalised result of one operation.
type QRes struct {
	Err        string         `json:"err,omitempty"`
	N          int            `json:"n,omitempty"`
	Matched    int            `json:"matched,omitempty"`
	Preview    bool           `json:"preview,omitempty"`
	Items      []Msg          `json:"items,omitempty"`
	Conflicts  []QConf        `json:"conflicts,omitempty"`
	ByState    map[string]int `json:"by_state,omitempty"`
	Total      int            `json:"total,omitempty"`
	Lookup     []string       `json:"lookup,omitempty"` // "id|route|state"
	Skipped    bool           `json:"skipped,omitempty"`
	StatsExtra string         `json:"stats_extra,omitempty"`
}

type QConf struct {
	Lease   string `json:"lease"`
	Expired bool   `json:"expired,omitempty"`
}

func errClass(err error) string {
	switch {
	case err == nil:
		return ""
	case errors.Is(err, ErrQueueFull):
		return "full"
	case errors.Is(err, ErrEnvelopeExists):
		return "exists"
	case errors.Is(err, ErrMemoryPressure):
		return "pressure"
	case errors.Is(err, ErrLeaseNotFound):
		return "notfound"
	case errors.Is(err, ErrLeaseExpired):
		return "expired"
	}
	return "other:" + err.Error()
}

// qClock is the fake clock shared by store and oracle.
type qClock struct{ ns atomic.Int64 }

func (c *qClock) Now() time.Time      { return qT0.Add(time.Duration(c.ns.Load())) }
func (c *qClock) rel() int64          { return c.ns.Load() }
func (c *qClock) set(ns int64)        { c.ns.Store(ns) }
func (c *qClock) add(d time.Duration) { c.ns.Add(int64(d)) }

type qStore interface {
	Store
	LeaseBatchStore
	BatchEnqueuer
}

// qWorld is one backend instance plus the run-time bookkeeping needed to resolve symbolic refs.
type qWorld struct {
	cfg    QCfg
	clk    *qClock
	st     qStore
	mem    *MemoryStore
	sql    *SQLiteStore
	dbPath string
	wallet []walletEntry // every lease ever granted, in grant order
	gen    []string      // generated message ids in order of appearance
	attSeq int
}

type walletEntry struct {
	Lease string
	Msg   string
	Until int64
}

var scratchOnce sync.Once
var scratchRoot string
var dbSeq atomic.Int64

func qScratch() string {
	scratchOnce.Do(func() {
		root := os.Getenv("VERIF_SCRATCH")
		if root == "" {
			if st, err := os.Stat("/dev/shm"); err == nil && st.IsDir() {
				root = "/dev/shm"
			} else {
				root = os.TempDir()
			}
		}
		_ = os.MkdirAll(root, 0o755)
		d, err := os.MkdirTemp(root, "verif-q-")
		if err != nil {
			panic(err)
		}
		scratchRoot = d
	})
	return scratchRoot
}

func ms(n int) time.Duration { return time.Duration(n) * time.Millisecond }

func openQStore(cfg QCfg, backend string, clk *qClock, dbPath string) (*qWorld, error) {
	w := &qWorld{cfg: cfg, clk: clk, dbPath: dbPath}
	switch backend {
	case "memory":
		opts := []MemoryOption{WithNowFunc(clk.Now), WithQueueLimits(cfg.MaxDepth, cfg.Drop),
			WithQueueRetention(ms(cfg.RetMs), ms(cfg.PruneMs)), WithDeliveredRetention(ms(cfg.DelivMs)),
			WithDLQRetention(ms(cfg.DLQAgeMs), cfg.DLQDepth)}
		if cfg.PressItems > 0 {
			opts = append(opts, WithMemoryPressureLimits(cfg.PressItems, 0))
		}
		w.mem = NewMemoryStore(opts...)
		w.st = w.mem
	case "sqlite":
		if w.dbPath == "" {
			w.dbPath = filepath.Join(qScratch(), fmt.Sprintf("q%d.db", dbSeq.Add(1)))
		}
		s, err := NewSQLiteStore(w.dbPath, sqliteOpts(cfg, clk)...)
		if err != nil {
			return nil, err
		}
		w.sql = s
		w.st = s
	default:
		return nil, fmt.Errorf("unknown backend %q", backend)
	}
	return w, nil
}

func sqliteOpts(cfg QCfg, clk *qClock) []SQLiteOption {
	return []SQLiteOption{WithSQLiteNowFunc(clk.Now), WithSQLiteQueueLimits(cfg.MaxDepth, cfg.Drop),
		WithSQLiteRetention(ms(cfg.RetMs), ms(cfg.PruneMs)), WithSQLiteDeliveredRetention(ms(cfg.DelivMs)),
		WithSQLiteDLQRetention(ms(cfg.DLQAgeMs), cfg.DLQDepth), WithSQLiteCheckpointInterval(0)}
}

func (w *qWorld) close() {
	if w.sql != nil {
		_ = w.sql.Close()
		w.sql = nil
		for _, suf := range []string{"", "-wal", "-shm"} {
			_ = os.Remove(w.dbPath + suf)
		}
	}
}

func (w *qWorld) reopen() error {
	if w.sql == nil {
		return nil
	}
	if err := w.sql.Close(); err != nil {
		return err
	}
	s, err := NewSQLiteStore(w.dbPath, sqliteOpts(w.cfg, w.clk)...)
	if err != nil {
		return err
	}
	w.sql = s
	w.st = s
	return nil
}

// snapshot reads the raw contents without going through the listing API (which prunes and
// caps at 1000 rows). Listing calls are generated as ordinary operations and compared with it.
func (w *qWorld) snapshot() (Snap, error) {
	out := Snap{}
	if w.mem != nil {
		w.mem.mu.Lock()
		defer w.mem.mu.Unlock()
		for id, e := range w.mem.items {
			if e == nil {
				continue
			}
			m := msgFromEnv(*e)
			if id != m.ID {
				return nil, fmt.Errorf("memory: map key %q holds message id %q", id, m.ID)
			}
			if _, dup := out[m.ID]; dup {
				return nil, fmt.Errorf("duplicate id %q", m.ID)
			}
			out[m.ID] = m
		}
		return out, nil
	}
	rows, err := w.sql.db.QueryContext(context.Background(), `
SELECT id, route, target, state, received_at, attempt, next_run_at, payload, headers_json, trace_json,
       schema_version, dead_reason, lease_id, lease_until FROM queue_items`)
	if err != nil {
		return nil, err
	}
	defer rows.Close()
	for rows.Next() {
		var m Msg
		var recv, next int64
		var payload []byte
		var hj, tj, dr, lid sql.NullString
		var lu sql.NullInt64
		if err := rows.Scan(&m.ID, &m.Route, &m.Target, &m.State, &recv, &m.Attempt, &next, &payload, &hj, &tj, &m.Schema, &dr, &lid, &lu); err != nil {
			return nil, err
		}
		m.Recv = relNs(time.Unix(0, recv).UTC())
		m.Next = relNs(time.Unix(0, next).UTC())
		m.Payload = normBytes(payload)
		m.Headers = normMap(unmarshalStringMap(hj))
		m.Trace = normMap(unmarshalStringMap(tj))
		if dr.Valid {
			m.Dead = dr.String
		}
		if lid.Valid {
			m.Lease = lid.String
		}
		m.Until = qZero
		if lu.Valid {
			m.Until = relNs(time.Unix(0, lu.Int64).UTC())
		}
		if _, dup := out[m.ID]; dup {
			return nil, fmt.Errorf("duplicate id %q", m.ID)
		}
		out[m.ID] = m
	}
	return out, rows.Err()
}

// memLeaseIndexGap returns a leased message whose lease id the memory store's lease index does not map to it.
func (w *qWorld) memLeaseIndexGap() (string, string) {
	w.mem.mu.Lock()
	defer w.mem.mu.Unlock()
	var ids []string
	for id, e := range w.mem.items {
		if e != nil && e.State == StateLeased && e.LeaseID != "" && w.mem.leases[e.LeaseID] != id {
			ids = append(ids, id)
		}
	}
	if len(ids) == 0 {
		return "", ""
	}
	sort.Strings(ids)
	return ids[0], w.mem.items[ids[0]].LeaseID
}

// sqliteCounters returns the queue_counters row (queued, leased).
func (w *qWorld) sqliteCounters() (int, int, error) {
	var q, l int
	err := w.sql.db.QueryRowContext(context.Background(), `SELECT queued, leased FROM queue_counters WHERE id=1`).Scan(&q, &l)
	return q, l, err
}

func (w *qWorld) resolveLease(r LRef) string {
	switch r.Mode {
	case "unknown":
		return "lease_00000000deadbeef"
	case "blank":
		if r.K%2 == 0 {
			return ""
		}
		return "  "
	}
	if len(w.wallet) == 0 {
		return "lease_0000000000000000"
	}
	k := r.K
	if k < 0 {
		k = len(w.wallet) + k
		if k < 0 {
			k = 0
		}
	} else {
		k = k % len(w.wallet)
	}
	id := w.wallet[k].Lease
	if r.Mode == "pad" {
		return " " + id + " "
	}
	return id
}

func (w *qWorld) resolveID(ref string) string {
	if strings.HasPrefix(ref, "@") {
		k, _ := strconv.Atoi(ref[1:])
		if len(w.gen) == 0 {
			return "gen_missing"
		}
		return w.gen[k%len(w.gen)]
	}
	return ref
}

func (w *qWorld) resolveIDs(refs []string) []string {
	out := make([]string, len(refs))
	for i, r := range refs {
		out[i] = w.resolveID(r)
	}
	return out
}

func itemEnvelope(it QItem, now time.Time) Envelope {
	e := Envelope{ID: it.ID, Route: it.Route, Target: it.Target, Payload: append([]byte(nil), it.Payload...), Headers: hdrVariant(it.Hdr)}
	if len(it.Payload) == 0 {
		e.Payload = nil
	}
	if it.Trc > 0 {
		e.Trace = hdrVariant(it.Trc)
	}
	if it.RecvAgoMs > 0 {
		e.ReceivedAt = now.Add(-ms(it.RecvAgoMs))
	}
	if it.NextInMs > 0 {
		e.NextRunAt = now.Add(ms(it.NextInMs))
	}
	return e
}

// resolvedOp is the concrete form of an op after symbolic references were resolved against
// this world; the oracle judges the concrete form.
type resolvedOp struct {
	Op     QOp
	Envs   []Envelope
	Leases []string
	IDs    []string
	Before time.Time
	Now    int64
	Dur    time.Duration
	Limit  int
}

func (w *qWorld) resolve(op QOp, snap Snap) resolvedOp {
	r := resolvedOp{Op: op, Now: w.clk.rel(), Dur: ms(op.DurMs), Limit: op.N}
	now := w.clk.Now()
	for _, it := range op.Items {
		r.Envs = append(r.Envs, itemEnvelope(it, now))
	}
	if op.L != nil {
		r.Leases = []string{w.resolveLease(*op.L)}
	}
	for _, l := range op.Ls {
		r.Leases = append(r.Leases, w.resolveLease(l))
	}
	r.IDs = w.resolveIDs(op.IDs)
	if op.BeforeOf != "" && op.K != "att" && op.K != "latt" {
		if m, ok := snap[op.BeforeOf]; ok && m.Recv != qZero {
			r.Before = qT0.Add(time.Duration(m.Recv))
		}
	} else if op.BeforeMs > 0 {
		r.Before = qT0.Add(ms(op.BeforeMs))
	}
	if (op.K == "att" || op.K == "latt") && op.BeforeMs > 0 {
		r.Before = qT0.Add(ms(op.BeforeMs))
	}
	return r
}

// advance moves the clock (never backwards) and reports the new time.
func (w *qWorld) advance(op QOp, snap Snap) {
	now := w.clk.rel()
	target := now
	switch op.AdvMode {
	case "lease":
		if len(w.wallet) > 0 {
			k := len(w.wallet) + op.AdvK
			if k < 0 {
				k = 0
			}
			le := w.wallet[k]
			until := le.Until
			if m, ok := snap[le.Msg]; ok && m.Lease == le.Lease && m.Until != qZero {
				until = m.Until
			}
			target = until + int64(ms(op.Ms))
		}
	case "nextrun":
		best := int64(-1)
		for _, m := range snap {
			if m.State == "queued" && m.Next > now && (best < 0 || m.Next < best) {
				best = m.Next
			}
		}
		if best >= 0 {
			target = best + int64(ms(op.Ms))
		}
	default:
		target = now + int64(ms(op.Ms))
	}
	// the clock of a case stays within ten years of its start: a lease or a delay of centuries is
	// something to be honoured, not something the clock walks to (64-bit nanosecond clocks end in 2262)
	if target > now && target-now < int64(10*365*24*time.Hour) {
		w.clk.set(target)
	}
}

// exec runs one resolved op against the store.
func (w *qWorld) exec(r resolvedOp) QRes {
	op := r.Op
	var res QRes
	switch op.K {
	case "enq":
		if op.Batch {
			n, err := w.st.EnqueueBatch(r.Envs)
			res.N, res.Err = n, errClass(err)
		} else {
			err := w.st.Enqueue(r.Envs[0])
			res.Err = errClass(err)
			if err == nil {
				res.N = 1
			}
		}
	case "deq":
		req := DequeueRequest{Route: op.Route, Target: op.Target, Batch: op.N, LeaseTTL: ms(op.TTLMs)}
		if op.UseNow {
			req.Now = w.clk.Now()
		}
		resp, err := w.st.Dequeue(req)
		res.Err = errClass(err)
		for _, e := range resp.Items {
			m := msgFromEnv(e)
			res.Items = append(res.Items, m)
			w.wallet = append(w.wallet, walletEntry{Lease: m.Lease, Msg: m.ID, Until: m.Until})
		}
	case "ack":
		res.Err = errClass(w.st.Ack(r.Leases[0]))
	case "nack":
		res.Err = errClass(w.st.Nack(r.Leases[0], r.Dur))
	case "ext":
		res.Err = errClass(w.st.Extend(r.Leases[0], r.Dur))
	case "dead":
		res.Err = errClass(w.st.MarkDead(r.Leases[0], op.Reason))
	case "ackb", "nackb", "deadb":
		var br LeaseBatchResult
		var err error
		switch op.K {
		case "ackb":
			br, err = w.st.AckBatch(r.Leases)
		case "nackb":
			br, err = w.st.NackBatch(r.Leases, r.Dur)
		default:
			br, err = w.st.MarkDeadBatch(r.Leases, op.Reason)
		}
		res.Err = errClass(err)
		res.N = br.Succeeded
		for _, c := range br.Conflicts {
			res.Conflicts = append(res.Conflicts, QConf{Lease: c.LeaseID, Expired: c.Expired})
		}
	case "cancel":
		x, err := w.st.CancelMessages(MessageCancelRequest{IDs: r.IDs})
		res.Err, res.N, res.Matched, res.Preview = errClass(err), x.Canceled, x.Matched, x.PreviewOnly
	case "requeue":
		x, err := w.st.RequeueMessages(MessageRequeueRequest{IDs: r.IDs})
		res.Err, res.N, res.Matched, res.Preview = errClass(err), x.Requeued, x.Matched, x.PreviewOnly
	case "resume":
		x, err := w.st.ResumeMessages(MessageResumeRequest{IDs: r.IDs})
		res.Err, res.N, res.Matched, res.Preview = errClass(err), x.Resumed, x.Matched, x.PreviewOnly
	case "rqdead":
		x, err := w.st.RequeueDead(DeadRequeueRequest{IDs: r.IDs})
		res.Err, res.N, res.Matched = errClass(err), x.Requeued, x.Requeued
	case "deldead":
		x, err := w.st.DeleteDead(DeadDeleteRequest{IDs: r.IDs})
		res.Err, res.N, res.Matched = errClass(err), x.Deleted, x.Deleted
	case "cancelf", "requeuef", "resumef":
		req := MessageManageFilterRequest{Route: op.Route, Target: op.Target, State: State(op.State), Limit: op.N, Before: r.Before, PreviewOnly: op.Preview}
		switch op.K {
		case "cancelf":
			x, err := w.st.CancelMessagesByFilter(req)
			res.Err, res.N, res.Matched, res.Preview = errClass(err), x.Canceled, x.Matched, x.PreviewOnly
		case "requeuef":
			x, err := w.st.RequeueMessagesByFilter(req)
			res.Err, res.N, res.Matched, res.Preview = errClass(err), x.Requeued, x.Matched, x.PreviewOnly
		default:
			x, err := w.st.ResumeMessagesByFilter(req)
			res.Err, res.N, res.Matched, res.Preview = errClass(err), x.Resumed, x.Matched, x.PreviewOnly
		}
	case "list":
		x, err := w.st.ListMessages(MessageListRequest{Route: op.Route, Target: op.Target, State: State(op.State), Order: op.Order,
			Limit: op.N, Before: r.Before, IncludePayload: op.Inc&1 != 0, IncludeHeaders: op.Inc&2 != 0, IncludeTrace: op.Inc&4 != 0})
		res.Err = errClass(err)
		if err != nil {
			res.Err = "other:invalid-order"
		}
		for _, e := range x.Items {
			res.Items = append(res.Items, msgFromEnv(e))
		}
	case "listdead":
		x, err := w.st.ListDead(DeadListRequest{Route: op.Route, Limit: op.N, Before: r.Before,
			IncludePayload: op.Inc&1 != 0, IncludeHeaders: op.Inc&2 != 0, IncludeTrace: op.Inc&4 != 0})
		res.Err = errClass(err)
		for _, e := range x.Items {
			res.Items = append(res.Items, msgFromEnv(e))
		}
	case "lookup":
		x, err := w.st.LookupMessages(MessageLookupRequest{IDs: r.IDs})
		res.Err = errClass(err)
		for _, it := range x.Items {
			res.Lookup = append(res.Lookup, it.ID+"|"+it.Route+"|"+string(it.State))
		}
	case "att":
		// attempt ids are unique by construction in every caller (generated); the case numbers them
		w.attSeq++
		id := fmt.Sprintf("att-%04d", w.attSeq)
		err := w.st.RecordAttempt(DeliveryAttempt{ID: id, EventID: op.BeforeOf, Route: op.Route, Target: op.Target, Attempt: op.N, StatusCode: op.Ms,
			Error: op.Reason, Outcome: AttemptOutcome(op.State), DeadReason: op.Order})
		res.Err = errClass(err)
	case "latt":
		x, err := w.st.ListAttempts(AttemptListRequest{Route: op.Route, Target: op.Target, EventID: op.BeforeOf, Outcome: AttemptOutcome(op.State), Limit: op.N, Before: r.Before})
		res.Err = errClass(err)
		for _, a := range x.Items {
			res.Lookup = append(res.Lookup, fmt.Sprintf("%s|%s|%s|%s|%d|%d|%q|%s|%q|%s", a.ID, a.EventID, a.Route, a.Target, a.Attempt, a.StatusCode, a.Error, a.Outcome, a.DeadReason, msOf(relNs(a.CreatedAt))))
		}
	case "stats":
		x, err := w.st.Stats()
		res.Err = errClass(err)
		res.Total = x.Total
		res.StatsExtra = fmt.Sprintf("oldest=%s next=%s age=%s lag=%s top=", msOf(relNs(x.OldestQueuedReceivedAt)), msOf(relNs(x.EarliestQueuedNextRun)), x.OldestQueuedAge, x.ReadyLag)
		for _, b := range x.TopQueued {
			res.StatsExtra += fmt.Sprintf("[%s %s %d %s %s %s %s]", b.Route, b.Target, b.Queued, msOf(relNs(b.OldestQueuedReceivedAt)), msOf(relNs(b.EarliestQueuedNextRun)), b.OldestQueuedAge, b.ReadyLag)
		}
		res.ByState = map[string]int{}
		for k, v := range x.ByState {
			if v != 0 {
				res.ByState[string(k)] = v
			}
		}
	case "reopen":
		if err := w.reopen(); err != nil {
			res.Err = "other:" + err.Error()
		}
	case "adv":
		// handled by the caller
	default:
		res.Err = "other:unknown-op"
	}
	return res
}

// noteGenerated records ids that appeared in the store without being named by the case.
func (w *qWorld) noteGenerated(prev, next Snap, r resolvedOp) {
	if r.Op.K != "enq" {
		return
	}
	named := map[string]bool{}
	for _, e := range r.Envs {
		named[e.ID] = true
	}
	for _, id := range next.sortedIDs() {
		if _, was := prev[id]; was || named[id] {
			continue
		}
		w.gen = append(w.gen, id)
	}
}

var _ = verifkit.Hash
