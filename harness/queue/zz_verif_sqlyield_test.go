//go:build verif

package queue

import (
	"context"
	"database/sql"
	"database/sql/driver"
	"strings"
	"sync"
	"sync/atomic"

	"github.com/nuetzliches/hookaido/internal/verifhook"
	sqlite3 "modernc.org/sqlite"
)

// A database/sql driver that wraps the SQLite driver and calls a yield function before every
// statement a connection executes (Exec, Query, prepared or not, BEGIN via BeginTx). The store
// opens it instead of "sqlite" when verifhook.UseSQLDriver names it (verif builds only). With
// it every statement boundary of an operation is a point at which the interleaving tier can
// hold that operation - wherever the code happens to read its clock.

const ySQLDriverName = "sqlite-verif-yield"

var ySQLYield atomic.Pointer[func(label string)]

var ySQLOnce sync.Once

func useYieldingSQLDriver(on bool) {
	ySQLOnce.Do(func() { sql.Register(ySQLDriverName, yDriver{inner: &sqlite3.Driver{}}) })
	if on {
		verifhook.UseSQLDriver(ySQLDriverName)
	} else {
		verifhook.UseSQLDriver("")
	}
}

func ySQLPoint(query string) {
	if f := ySQLYield.Load(); f != nil {
		q := strings.TrimSpace(query)
		if i := strings.IndexAny(q, " \n\t;"); i > 0 {
			q = q[:i]
		}
		(*f)("sql." + strings.ToLower(q))
	}
}

type yDriver struct{ inner driver.Driver }

func (d yDriver) Open(name string) (driver.Conn, error) {
	c, err := d.inner.Open(name)
	if err != nil {
		return nil, err
	}
	return &yConn{Conn: c}, nil
}

type yConn struct{ driver.Conn }

func (c *yConn) ExecContext(ctx context.Context, query string, args []driver.NamedValue) (driver.Result, error) {
	e, ok := c.Conn.(driver.ExecerContext)
	if !ok {
		return nil, driver.ErrSkip
	}
	ySQLPoint(query)
	return e.ExecContext(ctx, query, args)
}

func (c *yConn) QueryContext(ctx context.Context, query string, args []driver.NamedValue) (driver.Rows, error) {
	q, ok := c.Conn.(driver.QueryerContext)
	if !ok {
		return nil, driver.ErrSkip
	}
	ySQLPoint(query)
	return q.QueryContext(ctx, query, args)
}

func (c *yConn) PrepareContext(ctx context.Context, query string) (driver.Stmt, error) {
	var st driver.Stmt
	var err error
	if p, ok := c.Conn.(driver.ConnPrepareContext); ok {
		st, err = p.PrepareContext(ctx, query)
	} else {
		st, err = c.Conn.Prepare(query)
	}
	if err != nil {
		return nil, err
	}
	return &yStmt{Stmt: st, query: query}, nil
}

func (c *yConn) Prepare(query string) (driver.Stmt, error) {
	return c.PrepareContext(context.Background(), query)
}

func (c *yConn) BeginTx(ctx context.Context, opts driver.TxOptions) (driver.Tx, error) {
	ySQLPoint("begin")
	if b, ok := c.Conn.(driver.ConnBeginTx); ok {
		return b.BeginTx(ctx, opts)
	}
	return c.Conn.Begin() //nolint:staticcheck
}

func (c *yConn) Ping(ctx context.Context) error {
	if p, ok := c.Conn.(driver.Pinger); ok {
		return p.Ping(ctx)
	}
	return nil
}

func (c *yConn) ResetSession(ctx context.Context) error {
	if r, ok := c.Conn.(driver.SessionResetter); ok {
		return r.ResetSession(ctx)
	}
	return nil
}

func (c *yConn) IsValid() bool {
	if v, ok := c.Conn.(driver.Validator); ok {
		return v.IsValid()
	}
	return true
}

func (c *yConn) CheckNamedValue(nv *driver.NamedValue) error {
	if ch, ok := c.Conn.(driver.NamedValueChecker); ok {
		return ch.CheckNamedValue(nv)
	}
	return driver.ErrSkip
}

type yStmt struct {
	driver.Stmt
	query string
}

func (s *yStmt) ExecContext(ctx context.Context, args []driver.NamedValue) (driver.Result, error) {
	ySQLPoint(s.query)
	if e, ok := s.Stmt.(driver.StmtExecContext); ok {
		return e.ExecContext(ctx, args)
	}
	vals := make([]driver.Value, len(args))
	for i, a := range args {
		vals[i] = a.Value
	}
	return s.Stmt.Exec(vals) //nolint:staticcheck
}

func (s *yStmt) QueryContext(ctx context.Context, args []driver.NamedValue) (driver.Rows, error) {
	ySQLPoint(s.query)
	if q, ok := s.Stmt.(driver.StmtQueryContext); ok {
		return q.QueryContext(ctx, args)
	}
	vals := make([]driver.Value, len(args))
	for i, a := range args {
		vals[i] = a.Value
	}
	return s.Stmt.Query(vals) //nolint:staticcheck
}
