#!/bin/sh
# Offline setup: nothing to download or install. The checks build what they need from /repo's
# working tree on every run (Go build cache makes repeated builds cheap).
cd "$(dirname "$0")" || exit 1
python3 -c "import checks_table" || exit 1
exit 0
