#!/usr/bin/env python3
"""Regenerate the traceability table of DESIGN.md (section 2.2) from checks_table.py and harness/*/table.py."""
import os, re, sys
sys.path.insert(0, os.path.dirname(os.path.dirname(os.path.abspath(__file__))))
from checks_table import PROPS

def rows():
    out = ["| property | engine: test entry points (quick / thorough cases) |", "|---|---|"]
    for pid in sorted(PROPS):
        by = {}
        for p in PROPS[pid]["parts"]:
            q = p.get("quick") if "quick" in p.get("tiers", ["quick", "thorough"]) else None
            t = p.get("thorough") if "thorough" in p.get("tiers", ["quick", "thorough"]) else None
            by.setdefault(p["engine"], []).append("`%s` (%s / %s)" % (p["test"], q if q else "-", t if t else "-"))
        order = [e for e in ("qmodel", "front", "lease", "push", "cfg", "mcpgate") if e in by]
        out.append("| %s | %s |" % (pid, "; ".join("%s: %s" % (e, ", ".join(by[e])) for e in order)))
    return "\n".join(out)

def main():
    path = os.path.join(os.path.dirname(os.path.dirname(os.path.abspath(__file__))), "DESIGN.md")
    s = open(path).read()
    m = re.search(r"\| property \| engine: test entry points \(quick / thorough cases\) \|\n\|---\|---\|\n(?:\|.*\n)+", s)
    s = s[:m.start()] + rows() + "\n" + s[m.end():]
    open(path, "w").write(s)

if __name__ == "__main__":
    main()
