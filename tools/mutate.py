#!/usr/bin/env python3
"""Operator-level mutation sweep: a cheap, systematic sensitivity measurement next to the seeded breakages.

usage: tools/mutate.py <file-under-/repo> <check-id>[,<check-id>...] [--n 20] [--rng 1] [--out results.jsonl]
                       [--pkg-tests] [--lines A-B]

For a sample of mutation sites in one non-test Go source file (relational and logical operators, boolean
negation, small integer literals next to a comparison) it
  1. applies the mutant in a scratch worktree of /repo HEAD (outside /repo and /verif, removed afterwards),
  2. builds the package (a mutant that does not compile is dropped),
  3. runs the package's own tests of the repository (a mutant they kill is "killed-by-suite": not interesting),
  4. runs the named checks (quick tier, --repo <worktree>, --no-evidence), first one to exit 1 kills it.
One JSON line per mutant. Survivors are to be triaged by hand: equivalent mutant, outside every property, or a
blind spot of the checks. Nothing here is evidence for a property; it measures the checks.
"""
import argparse, json, os, random, re, subprocess, sys, time

VERIF = os.path.dirname(os.path.dirname(os.path.abspath(__file__)))

def sh(cmd, cwd=None, timeout=1800, env=None):
    e = dict(os.environ); e["GOFLAGS"] = "-mod=mod"; e["GOPROXY"] = "off"; e.pop("GOSUMDB", None)
    if env: e.update(env)
    try:
        p = subprocess.run(cmd, shell=True, cwd=cwd, env=e, stdout=subprocess.PIPE, stderr=subprocess.STDOUT, text=True, timeout=timeout)
        return p.returncode, p.stdout
    except subprocess.TimeoutExpired:
        return 124, "timeout"

OPS = [
    (r"(?<![<>=!])<=(?!=)", "<"), (r"(?<![<>=!-])>=(?!=)", ">"),
    (r"(?<![<-])<(?![<=-])", "<="), (r"(?<![>-])>(?![>=])", ">="),
    (r"==", "!="), (r"!=", "=="), (r"&&", "||"), (r"\|\|", "&&"),
]

def sites(src, lo, hi):
    out = []
    in_block = False
    for i, line in enumerate(src):
        s = line.strip()
        if in_block:
            if "*/" in s: in_block = False
            continue
        if s.startswith("/*"):
            in_block = "*/" not in s; continue
        if s.startswith("//") or not s: continue
        if i + 1 < lo or i + 1 > hi: continue
        code = line.split("//")[0] if '"' not in line else line
        # mask string literals
        masked = re.sub(r'"(?:\\.|[^"\\])*"', lambda m: '"' + "_" * (len(m.group(0)) - 2) + '"', code)
        masked = re.sub(r"`[^`]*`", lambda m: "`" + "_" * (len(m.group(0)) - 2) + "`", masked)
        masked = re.sub(r"'(?:\\.|[^'\\])+'", lambda m: "'" + "_" * (len(m.group(0)) - 2) + "'", masked)
        if "//" in masked: masked = masked[:masked.index("//")]
        if re.match(r"\s*(func|type|import|package|var|const)\b", masked) and "if" not in masked: continue
        for pat, rep in OPS:
            for m in re.finditer(pat, masked):
                ctx = masked[max(0, m.start() - 12):m.end() + 8]
                if "nil" in ctx or "err" in ctx: continue
                if "[" in masked[:m.start()] and masked.count("[") != masked.count("]"): continue
                # generic type params / channel arrows are not comparisons
                if rep in ("<=", ">=") and re.search(r"(chan|map\[|func\()", masked): continue
                out.append((i, m.start(), m.end(), rep, m.group(0)))
        for m in re.finditer(r"(?<![\w)])!(?=[\w(])", masked):
            out.append((i, m.start(), m.end(), "", "!"))
    return out

def main():
    ap = argparse.ArgumentParser()
    ap.add_argument("file"); ap.add_argument("checks")
    ap.add_argument("--n", type=int, default=20); ap.add_argument("--rng", type=int, default=1)
    ap.add_argument("--out", default="/root/sweep/mutants.jsonl"); ap.add_argument("--lines", default="")
    ap.add_argument("--no-pkg-tests", action="store_true"); ap.add_argument("--seed", default="1")
    a = ap.parse_args()
    rel = a.file
    pkg = os.path.dirname(rel)
    wt = "/tmp/mut-%d" % os.getpid()
    sh("git -C /repo worktree remove --force %s" % wt)
    rc, o = sh("git -C /repo worktree add -q %s HEAD" % wt)
    if rc: print(o); return 2
    try:
        path = os.path.join(wt, rel)
        orig = open(path).read()
        src = orig.split("\n")
        lo, hi = 1, len(src)
        if a.lines: lo, hi = [int(x) for x in a.lines.split("-")]
        ss = sites(src, lo, hi)
        random.Random(a.rng).shuffle(ss)
        done = 0
        os.makedirs(os.path.dirname(a.out), exist_ok=True)
        for (li, s, e, rep, was) in ss:
            if done >= a.n: break
            line = src[li]
            mut = line[:s] + rep + line[e:]
            new = list(src); new[li] = mut
            open(path, "w").write("\n".join(new))
            rec = {"file": rel, "line": li + 1, "was": line.strip()[:160], "now": mut.strip()[:160], "op": "%s->%s" % (was, rep or "(removed)")}
            rc, o = sh("go build ./%s" % pkg, cwd=wt, timeout=600)
            if rc:
                rec["status"] = "no-compile"; continue_ = True
            else:
                continue_ = False
                if not a.no_pkg_tests:
                    t0 = time.time()
                    rc, o = sh("go test -vet=off -count=1 -timeout 10m ./%s 2>&1 | tail -5" % pkg, cwd=wt, timeout=900)
                    rec["suite_s"] = round(time.time() - t0)
                    if rc or "FAIL" in o:
                        rec["status"] = "killed-by-suite"; continue_ = True
            if not continue_:
                done += 1
                rec["status"] = "survived"; rec["checks"] = {}
                for cid in a.checks.split(","):
                    t0 = time.time()
                    rc, o = sh("./check %s --tier quick --repo %s --no-evidence" % (cid, wt), cwd=VERIF, env={"VERIF_SEED": a.seed}, timeout=1500)
                    rec["checks"][cid] = {"exit": rc, "s": round(time.time() - t0)}
                    if rc == 1:
                        v = [l for l in o.splitlines() if "clause=" in l or l.startswith("VIOLATION")][:2]
                        rec["status"] = "killed"; rec["by"] = cid; rec["lines"] = [x[:240] for x in v]; break
            with open(a.out, "a") as f: f.write(json.dumps(rec) + "\n")
            print(json.dumps(rec)[:400], flush=True)
            open(path, "w").write(orig)
    finally:
        sh("git -C /repo worktree remove --force %s" % wt)
    return 0

if __name__ == "__main__":
    sys.exit(main())
