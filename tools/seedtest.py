#!/usr/bin/env python3
"""Validate a seeded breakage and run checks against it.

usage: tools/seedtest.py <seed-out-dir> <check-id>[,<check-id>...] [--skip-validate] [--tier quick] [--scale F] [--seeds 1,2]

1. scratch worktree of /repo HEAD, apply patch.diff, run the repository's suite (must pass)
2. run the demonstration with the patch (must fail) and without (must pass)
3. run ./check <id> --repo <worktree> for each id and report exit codes
The worktree is removed afterwards.
"""
import argparse, glob, json, os, re, shutil, subprocess, sys, time

VERIF = os.path.dirname(os.path.dirname(os.path.abspath(__file__)))

def sh(cmd, cwd=None, timeout=3000, env=None):
    e = dict(os.environ); e["GOFLAGS"] = "-mod=mod"; e["GOPROXY"] = "off"; e.pop("GOSUMDB", None)
    if env: e.update(env)
    p = subprocess.run(cmd, shell=True, cwd=cwd, env=e, stdout=subprocess.PIPE, stderr=subprocess.STDOUT, text=True, timeout=timeout)
    return p.returncode, p.stdout

def main():
    ap = argparse.ArgumentParser()
    ap.add_argument("out"); ap.add_argument("checks")
    ap.add_argument("--skip-validate", action="store_true")
    ap.add_argument("--tier", default="quick"); ap.add_argument("--scale", default="1"); ap.add_argument("--seeds", default="1")
    a = ap.parse_args()
    out = os.path.abspath(a.out)
    name = os.path.basename(out.rstrip("/"))
    wt = "/tmp/val-%s-%d" % (name, os.getpid())
    res = {"seed": name, "dir": out}
    sh("git -C /repo worktree remove --force %s" % wt)
    rc, o = sh("git -C /repo worktree add -q %s HEAD" % wt)
    if rc: print(o); return 2
    try:
        patch = os.path.join(out, "patch.diff")
        rc, o = sh("git apply --check %s && git apply %s" % (patch, patch), cwd=wt)
        res["patch_applies"] = rc == 0
        if rc: print(o); print(json.dumps(res)); return 2
        if not a.skip_validate:
            rc, o = sh("go build ./... && go test -vet=off -count=1 ./... 2>&1 | tail -30", cwd=wt)
            res["suite_passes_with_patch"] = rc == 0 and "FAIL" not in o
            if not res["suite_passes_with_patch"]:
                print(o[-3000:])
                # process-spawning tests of the suite time out when the machine is saturated: re-run the
                # failing packages alone, twice; a deterministic failure fails both times
                pk = sorted(set(re.findall(r"^FAIL\s+(\S+)", o, re.M)))
                if pk:
                    again = [sh("go test -vet=off -count=1 %s 2>&1 | tail -30" % " ".join(pk), cwd=wt) for _ in range(2)]
                    if all(r == 0 and "FAIL" not in oo for r, oo in again):
                        res["suite_passes_with_patch"] = True
                        res["suite_note"] = "first run failed in %s under load; two re-runs of those packages passed" % ",".join(pk)
            demos = [f for f in glob.glob(os.path.join(out, "*_test.go"))]
            res["demos"] = [os.path.basename(d) for d in demos]
            notes = open(os.path.join(out, "notes.md")).read() if os.path.exists(os.path.join(out, "notes.md")) else ""
            placed = []
            for d in demos:
                src = open(d).read()
                m = re.search(r"^package (\w+)", src, re.M)
                pkg = m.group(1) if m else ""
                # find the package dir: mentioned in notes, else by package name
                cand = None
                for mm in re.finditer(r"(internal/[\w/]+|cmd/[\w/]+)", notes):
                    p = mm.group(1).rstrip("/")
                    if p.endswith(".go"): p = os.path.dirname(p)
                    if os.path.isdir(os.path.join(wt, p)) and os.path.basename(p) == pkg.replace("_test", ""):
                        cand = p; break
                if cand is None:
                    for p in glob.glob(os.path.join(wt, "internal", "*")) + glob.glob(os.path.join(wt, "internal", "*", "*")):
                        if os.path.isdir(p) and os.path.basename(p) == pkg.replace("_test", ""):
                            cand = os.path.relpath(p, wt); break
                if cand is None:
                    res.setdefault("demo_errors", []).append("no package dir for " + d); continue
                shutil.copy(d, os.path.join(wt, cand, os.path.basename(d)))
                placed.append((cand, os.path.basename(d)))
            def run_demos():
                ok = True; outs = []
                for cand, fn in placed:
                    tests = re.findall(r"^func (Test\w+)\(", open(os.path.join(wt, cand, fn)).read(), re.M)
                    rc, o = sh("go test -vet=off -count=1 -run '^(%s)$' ./%s 2>&1 | tail -15" % ("|".join(tests), cand), cwd=wt)
                    passed = rc == 0 and "FAIL" not in o and "ok" in o
                    ok = ok and passed; outs.append(o[-600:])
                return ok, outs
            ok_with, o1 = run_demos()
            res["demo_fails_with_patch"] = not ok_with
            sh("git apply -R %s" % patch, cwd=wt)
            ok_without, o2 = run_demos()
            res["demo_passes_without_patch"] = ok_without
            if ok_with or not ok_without:
                print("---- demo with patch:\n" + "\n".join(o1)); print("---- demo without patch:\n" + "\n".join(o2))
            for cand, fn in placed:
                os.remove(os.path.join(wt, cand, fn))
            sh("git apply %s" % patch, cwd=wt)
        res["checks"] = {}
        for cid in a.checks.split(","):
            for seed in a.seeds.split(","):
                t0 = time.time()
                rc, o = sh("./check %s --tier %s --scale %s --repo %s --no-evidence" % (cid, a.tier, a.scale, wt), cwd=VERIF, env={"VERIF_SEED": seed})
                viol = [l for l in o.splitlines() if l.startswith("VIOLATION") or "clause=" in l][:4]
                res["checks"]["%s@seed%s" % (cid, seed)] = {"exit": rc, "s": round(time.time() - t0), "lines": [v[:300] for v in viol]}
        print(json.dumps(res, indent=1))
    finally:
        sh("git -C /repo worktree remove --force %s" % wt)
    return 0

if __name__ == "__main__":
    sys.exit(main())
